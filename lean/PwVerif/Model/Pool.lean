/-
Family Q — `Pool.run` (`pyworkers/pool.py:229-426`) against an adversarial environment.

Hand-written model of the bookkeeping closures (`next_inputs`, `get_next_idle_worker`,
`handle_death`, `handle_unused_data`, `handle_enqueue`, `try_enqueue`,
`handle_new_result`, `first_enqueue`, the event loop and the exit test), tied to the code
by `harness/pool_driver.py`: the *real* `Pool.run` is driven by fake workers whose
progress, deaths and queue readiness follow the same adversary script that `runScript`
below consumes; compared: outcome kind, result list, sequence of enqueue calls.

Inputs are tokens (`Nat`); the target is the identity on tokens, so a result *is* its
input. Workers are numbered `0 .. n-1`.

Environment (per worker): `alive`, `inbox` (inputs accepted by `enqueue` and not yet
processed), `lost` (inputs that were in the inbox when the worker died), `chan` (messages
written to its results pipe and not yet read by the pool), `eof` (the worker has closed its
end: after `chan` is drained the pool sees EOF).

`enqueue` on a worker succeeds iff the worker is alive at that moment (a dead worker raises
`WorkerClosedError`, then `is_alive()` is false and the pool handles its death "while
enqueueing") - assumption E-Q1, cross-checked on real workers by the randomized real-pool
runs of the thorough tier.
-/
namespace PwVerif.Pool

abbrev Inp := Nat

inductive Msg where
  | res (i : Inp)       -- (counter, True, value, wid)
  | endMarker           -- (counter, False, None, wid)
deriving Repr, DecidableEq

structure Worker where
  alive : Bool := true
  inbox : List Inp := []
  lost  : List Inp := []
  chan  : List Msg := []
  eof   : Bool := false
  -- pool-side bookkeeping for this worker
  ppw    : List Inp := []      -- _pending_per_worker[wid]
  closed : Bool := false       -- wid in _closed
  queue  : Bool := true        -- wid in _queues
deriving Repr, DecidableEq

inductive Err where
  | popEmpty        -- `self._pending_per_worker[wid].pop(0)` on an empty list (IndexError)
  | outOfFuel       -- the re-dispatch loop of handle_death did not finish (livelock)
deriving Repr, DecidableEq

/-- ghost record (not in the code): an input the pool gave up because the worker it belonged to was dead -/
structure Drop where
  w : Nat            -- the worker
  inp : Inp
  handed : Bool      -- true: it had been enqueued to `w` (was on its pending list when `w` was declared dead);
                     -- false: it was being handed to `w` when `w` turned out to be dead / already closed
deriving Repr, DecidableEq

structure Cfg where
  retry : Bool := true
  extra : Nat := 0             -- worker_extra_pending_inputs
  returnResults : Bool := true
  /-- user `enqueue_fn`: `refuse w i = true` means the function returns False for that pair -/
  refuse : Nat → Inp → Bool := fun _ _ => false

structure St where
  ws : List Worker
  src : List Inp                -- what the input iterator still holds
  depleted : Bool := false
  retries : List Inp := []
  pending : Int := 0
  ret : List Inp := []
  enq : List (Nat × Inp) := []  -- log of successful enqueue calls (worker, input), oldest first
  err : Option Err := none
  /-- ghost: with retry disabled, the inputs given up (with retry enabled they go to `retries` instead) -/
  dropped : List Drop := []
deriving Repr

def getW (s : St) (w : Nat) : Worker := (s.ws[w]?).getD {}

def setW (s : St) (w : Nat) (x : Worker) : St := { s with ws := s.ws.set w x }

/-- `next_inputs` -/
def nextInputs (s : St) : Option (Bool × Inp) × St :=
  match s.retries with
  | r :: rs => (some (true, r), { s with retries := rs })
  | [] =>
    if s.depleted then (none, s)
    else match s.src with
      | [] => (none, { s with depleted := true })
      | i :: rest => (some (false, i), { s with src := rest })

/-- put an input back on the retry list: at its head if it came from there, else at the end -/
def putBack (s : St) (inp : Inp) (fromRetries : Bool) : St :=
  if fromRetries then { s with retries := inp :: s.retries }
  else { s with retries := s.retries ++ [inp] }

/-- `handle_unused_data(data, from_retries)` for an input whose worker is dead or closed: kept only when retry is on -/
def unused (c : Cfg) (s : St) (inp : Inp) (fromRetries : Bool) : St :=
  if !c.retry then s else putBack s inp fromRetries

/-- ghost bookkeeping for `handle_unused_data` called because worker `w` is dead or closed: with retry
    disabled the input is given up -/
def giveUp (c : Cfg) (s : St) (w : Nat) (inp : Inp) : St :=
  if c.retry then s else { s with dropped := s.dropped ++ [⟨w, inp, false⟩] }

/-- indices of idle workers: empty pending list and not closed (`get_next_idle_worker`) -/
def idleFrom : List Worker → Nat → List Nat
  | [], _ => []
  | w :: ws, k => if w.ppw.isEmpty && !w.closed then k :: idleFrom ws (k + 1) else idleFrom ws (k + 1)

def idle (s : St) : List Nat := idleFrom s.ws 0

/-- bookkeeping part of `handle_death` before its re-dispatch loop -/
def markDead (c : Cfg) (s : St) (w : Nat) : St :=
  let x := getW s w
  let s := if c.retry then { s with retries := s.retries ++ x.ppw }
           else { s with dropped := s.dropped ++ x.ppw.map (fun i => ⟨w, i, true⟩) }
  let s := { s with pending := s.pending - x.ppw.length }
  setW s w { x with ppw := [], closed := true }

/-- successful `worker.enqueue` + `handle_enqueue` -/
def doEnqueue (s : St) (w : Nat) (inp : Inp) : St :=
  let x := getW s w
  let s := setW s w { x with inbox := x.inbox ++ [inp], ppw := x.ppw ++ [inp] }
  { s with pending := s.pending + 1, enq := s.enq ++ [(w, inp)] }

/-- idle workers that the current `handle_death` round has not skipped (`get_next_idle_worker(skipped)`) -/
def avail (s : St) (skip : List Nat) : List Nat := (idle s).filter (fun w => !skip.contains w)

/-- The `while self._retries:` loop of `handle_death`, including the deaths it discovers
    itself (nested `handle_death` calls made by `try_enqueue`). `pick` is the (arbitrary)
    choice `next(iter(idle))`; `skip` is the set `skipped` of workers that did not take what they
    were offered in this round (each nested `handle_death` starts its own). -/
def settle (c : Cfg) (pick : List Nat → Option Nat) : Nat → List Nat → St → St
  | 0, skip, s => if s.retries.isEmpty then s else
      match pick (avail s skip) with
      | none => s
      | some _ => { s with err := some .outOfFuel }
  | fuel + 1, skip, s =>
    match s.retries with
    | [] => s
    | inp :: rest =>
      match pick (avail s skip) with
      | none => s
      | some w =>
        let waiting := s.retries.length
        -- try_enqueue(idle): next_inputs pops the head of retries
        let s := { s with retries := rest }
        let s' :=
          if c.refuse w inp then
            -- enqueue_fn returned False: handle_unused_data(inp, from_retries=True)
            { s with retries := inp :: s.retries }
          else if (getW s w).alive then doEnqueue s w inp
          else
            -- enqueue raised, worker is dead: handle_death(idle) (its own loop first) ...
            let s := settle c pick fuel [] (markDead c s w)
            -- ... then handle_unused_data(inp, True)
            unused c (giveUp c s w inp) inp true
        -- `if len(self._retries) >= waiting: skipped.add(idle.id)`, then the loop goes on
        settle c pick fuel (if waiting ≤ s'.retries.length then w :: skip else skip) s'

/-- `handle_death`. The fuel bounds the number of rounds of the loop including those of the nested calls: every
    round closes a worker, makes an idle worker busy or adds a worker to `skipped` (`Lemmas/PoolF.lean`). -/
def handleDeath (c : Cfg) (pick : List Nat → Option Nat) (s : St) (w : Nat) : St :=
  settle c pick ((s.ws.length + 1) * (s.ws.length + 1)) [] (markDead c s w)

/-- `try_enqueue(worker)`; the Bool is its return value ("there was data") -/
def tryEnqueue (c : Cfg) (pick : List Nat → Option Nat) (s : St) (w : Nat) : St × Bool :=
  match nextInputs s with
  | (none, s) => (s, false)
  | (some (fromRetries, inp), s) =>
    if (getW s w).closed then (unused c (giveUp c s w inp) inp fromRetries, true)
    -- refused by the user `enqueue_fn`: `handle_unused_data(inp, from_retries, keep=True)` - nobody died, the input
    -- waits for another worker whatever the retry policy
    else if c.refuse w inp then (putBack s inp fromRetries, true)
    else if (getW s w).alive then (doEnqueue s w inp, true)
    else (unused c (giveUp c (handleDeath c pick s w) w inp) inp fromRetries, true)

/-- one round of `first_enqueue` over the workers `k, k+1, ...`; `false` = stop everything -/
def firstRound (c : Cfg) (pick : List Nat → Option Nat) : Nat → Nat → St → St × Bool
  | 0, _, s => (s, true)
  | n + 1, k, s =>
    if (getW s k).closed then firstRound c pick n (k + 1) s
    else
      match tryEnqueue c pick s k with
      | (s, false) => (s, false)
      | (s, true) => firstRound c pick n (k + 1) s

def firstEnqueue (c : Cfg) (pick : List Nat → Option Nat) : Nat → St → St
  | 0, s => s
  | rounds + 1, s =>
    match firstRound c pick s.ws.length 0 s with
    | (s, false) => s
    | (s, true) => firstEnqueue c pick rounds s

/-- loop condition of the event loop -/
def running (s : St) : Bool := s.pending ≠ 0 && s.ws.any (fun w => !w.closed)

/-- The pool reads one message from the queue of worker `w` (the queue must be ready: a
    message is buffered, or the writer closed). -/
def onPoll (c : Cfg) (pick : List Nat → Option Nat) (s : St) (w : Nat) : St :=
  let x := getW s w
  if !x.queue then s else
  match x.chan with
  | [] =>
    if !x.eof then s            -- not ready: nothing happens
    else
      -- EOFError: close and forget the queue; artificial closing message unless already closed
      let s := setW s w { x with queue := false }
      if x.closed then s else handleDeath c pick s w
  | .endMarker :: rest =>
    let s := setW s w { x with chan := rest }
    if x.closed then s else handleDeath c pick s w
  | .res i :: rest =>
    let s := setW s w { x with chan := rest }
    if x.closed then s            -- late result of a worker already declared dead: dropped
    else
      -- handle_new_result
      let x := getW s w
      match x.ppw with
      | [] => { s with err := some .popEmpty }
      | _ :: ppw' =>
        let s := setW s w { x with ppw := ppw' }
        let s := { s with pending := s.pending - 1,
                          ret := if c.returnResults then s.ret ++ [i] else s.ret }
        (tryEnqueue c pick s w).1

/-- adversary events -/
inductive Ev where
  | work (w : Nat)               -- worker w finishes its next input and sends the result
  | die (w : Nat) (marker : Bool) -- worker w dies (with or without writing the end marker)
  | poll (ws : List Nat)         -- `mp.connection.wait` returns the queues of these workers as ready;
                                 -- the pool reads one message from each, in this order
deriving Repr, DecidableEq

def step (c : Cfg) (pick : List Nat → Option Nat) (s : St) : Ev → St
  | .work w =>
    let x := getW s w
    if !x.alive then s else
    match x.inbox with
    | [] => s
    | i :: rest => setW s w { x with inbox := rest, chan := x.chan ++ [.res i] }
  | .die w marker =>
    let x := getW s w
    if !x.alive then s else
    setW s w { x with alive := false, lost := x.lost ++ x.inbox, inbox := [],
                      chan := if marker then x.chan ++ [.endMarker] else x.chan, eof := true }
  | .poll ws =>
    -- the loop condition is evaluated once per `wait`, every ready connection is then processed
    if running s && s.err.isNone then
      ws.foldl (fun s w => if s.err.isNone then onPoll c pick s w else s) s
    else s

def initSt (n : Nat) (src : List Inp) : St := { ws := List.replicate n {}, src := src }

/-- `Pool.run` up to the event loop. `pre` are environment events that happen before the run
    starts (workers that are already dead when `run` is called, unknown to the pool). -/
def start (c : Cfg) (pick : List Nat → Option Nat) (n : Nat) (src : List Inp) (pre : List Ev := []) : St :=
  firstEnqueue c pick (c.extra + 1) (pre.foldl (step c pick) (initSt n src))

def runEvents (c : Cfg) (pick : List Nat → Option Nat) : St → List Ev → St
  | s, [] => s
  | s, e :: es => runEvents c pick (step c pick s e) es

inductive Outcome where
  | waiting                      -- the event loop is still waiting
  | returned (ret : List Inp)
  | poolError (part : List Inp)
  | internal (e : Err)
deriving Repr, DecidableEq

def outcome (s : St) : Outcome :=
  match s.err with
  | some e => .internal e
  | none =>
    if running s then .waiting
    else if s.depleted && s.pending = 0 && s.retries.isEmpty then .returned s.ret
    else .poolError s.ret

def pickFirst : List Nat → Option Nat := List.head?

/-! ### consecutive runs on one pool

`Pool.run` re-initialises its bookkeeping at the start of every call (`pool.py`, the assignments in front of
the nested functions); which fields it re-initialises is **regenerated from /repo** into `Gen/PoolReset.lean`.
The workers (alive or not, what is still buffered in their pipes, which ones the pool has closed) carry over. -/

structure ResetCfg where
  depleted : Bool      -- `self._depleted = False`
  pending : Bool       -- `self._pending = 0`
  ppw : Bool           -- `self._pending_per_worker = { worker.id: [] for ... }`
  retries : Bool       -- `self._retries = []`
  ret : Bool           -- `ret = []`
deriving Repr, DecidableEq

def ResetCfg.all (r : ResetCfg) : Bool := r.depleted && r.pending && r.ppw && r.retries && r.ret

/-- the pool's state when `run()` is entered again with a new input sequence -/
def resetFor (r : ResetCfg) (s : St) (src : List Inp) : St :=
  { ws := if r.ppw then s.ws.map (fun x => { x with ppw := [] }) else s.ws,
    src := src,
    depleted := if r.depleted then false else s.depleted,
    retries := if r.retries then [] else s.retries,
    pending := if r.pending then 0 else s.pending,
    ret := if r.ret then [] else s.ret,
    enq := [], err := none, dropped := [] }

/-- the "run in progress" flag of the pool (`_map_guard`): `restart_workers`, `close`, `terminate` and `run` itself refuse to
    work while it is set. Where `run()` sets and clears it is regenerated from /repo (`Gen.poolGuard`). -/
structure GuardCfg where
  setInTry : Bool           -- `self._map_guard = True` is the first thing inside the `try` (not in front of it)
  clearedInFinally : Bool   -- the `finally` of that `try` does `self._map_guard = False`
deriving Repr, DecidableEq

/-- the ways `run()` can end -/
inductive RunEnd where
  | noWorkers      -- the early `return` in front of the `try`: no usable worker
  | returned | poolError | raised
deriving Repr, DecidableEq

/-- the flag after a `run()` that found it clear -/
def guardAfter (g : GuardCfg) : RunEnd → Bool
  | .noWorkers => !g.setInTry          -- set in front of the early return: nobody clears it
  | _ => !g.clearedInFinally             -- the `try` was entered: its `finally` decides

/-- `run()` returns at once (with `None`) when no usable worker is left -/
def usable (s : St) : Bool := s.ws.any (fun w => !w.closed)

/-- the next `run()` on the same pool, up to its event loop; `pre`: what happened to the workers between the runs -/
def nextRun (c : Cfg) (pick : List Nat → Option Nat) (r : ResetCfg) (s : St) (src : List Inp) (pre : List Ev := []) : St :=
  firstEnqueue c pick (c.extra + 1) (pre.foldl (step c pick) (resetFor r s src))

end PwVerif.Pool
