/-
Family G — the registry of live workers (`pyworkers/worker.py`:
`Worker.__init__` registration, `register_child`, `active_children`,
`autoclose_active_children`).

Hand-written model; tied to the code by `harness/c19.py`, which runs the same
operation histories on real workers and on `run` below and compares the yielded
sets and the registry size after every `active` operation.

Workers are numbered in creation order. `alive` is the set of workers whose
`is_alive()` is true (kept as a list without duplicates). The registry lock makes
each operation atomic, so a multi-threaded history is one of these sequential ones.
-/
namespace PwVerif.Registry

structure St where
  next  : Nat := 0          -- number of workers created so far
  alive : List Nat := []    -- ids with is_alive() = True
  reg   : List Nat := []    -- Worker._active_children (ids)
deriving Repr, DecidableEq

inductive Op where
  | create (run : Bool)     -- construct a worker; `run=false` (or falsy target) never starts
  | finish (w : Nat)        -- the worker ends (returns, raises, is terminated, is killed)
  | restart (w : Nat)       -- PersistentWorker.restart on a dead (or stoppable) worker
  | active                  -- list(Worker.active_children())
  | autoclose               -- leaving `with autoclose_active_children():` (cooperative workers)
deriving Repr, DecidableEq

/-- `register_child`: idempotent append. -/
def register (reg : List Nat) (w : Nat) : List Nat :=
  if w ∈ reg then reg else reg ++ [w]

/-- One operation; the output is what `active_children()` yields (empty for other ops). -/
def step (s : St) : Op → St × List Nat
  | .create run =>
    if run then
      ({ next := s.next + 1, alive := s.alive ++ [s.next], reg := register s.reg s.next }, [])
    else ({ s with next := s.next + 1 }, [])
  | .finish w => ({ s with alive := s.alive.filter (· ≠ w) }, [])
  | .restart w =>
    -- only an existing worker can be restarted; restart first stops the old incarnation,
    -- then re-runs __init__, which registers the (now alive) worker again
    if w < s.next then
      let alive' := s.alive.filter (· ≠ w) ++ [w]
      ({ s with alive := alive', reg := register s.reg w }, [])
    else (s, [])
  | .active =>
    let reg' := s.reg.filter (· ∈ s.alive)
    ({ s with reg := reg' }, reg')
  | .autoclose =>
    -- for child in active_children(): close(); wait() or terminate()  — every yielded
    -- (cooperative) child ends
    let reg' := s.reg.filter (· ∈ s.alive)
    ({ s with reg := reg', alive := s.alive.filter (· ∉ reg') }, reg')

def run : St → List Op → St × List (List Nat)
  | s, [] => (s, [])
  | s, op :: ops =>
    let (s', out) := step s op
    let (s'', outs) := run s' ops
    (s'', out :: outs)

/-- registered workers that are no longer alive: what the registry still retains of the dead
    (observed on the real registry by the probe `d` of the correspondence) -/
def dead (s : St) : Nat := s.reg.countP (fun x => decide (x ∉ s.alive))

def final (ops : List Op) : St := (run {} ops).1

end PwVerif.Registry
