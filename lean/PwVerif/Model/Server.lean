/-
Family R — the accept loop of `RemoteServer.run` (`remote_server.py:91-178`) as a list of
client-facing steps with the exception policy that encloses each (T-srv target language), and
the effect of a client that vanishes at a given step.
-/
namespace PwVerif.Server

inductive StepKind where
  | accept | recv | send | ctxCall
deriving Repr, DecidableEq

/-- what happens to a ConnectionClosedError raised by the step -/
inductive Policy where
  | continue        -- caught, the loop goes on with the next client
  | fallsThrough    -- caught, but execution continues with the statements after the try
  | raises          -- caught and re-raised
  | breaks          -- caught, leaves the accept loop
  | uncaught        -- not caught inside the loop: the server's run() ends
deriving Repr, DecidableEq

structure Step where
  kind : StepKind
  line : Nat
  policy : Policy
deriving Repr, DecidableEq

inductive Status where
  | accepting
  | dead
deriving Repr, DecidableEq

/-- a client session: it vanishes at step `cut` (index into the loop's steps) or completes -/
structure Session where
  cut : Option Nat
deriving Repr, DecidableEq

def stepSurvives (s : Step) : Bool := s.policy == .continue

def handle (loop : List Step) (st : Status) (sess : Session) : Status :=
  match st with
  | .dead => .dead
  | .accepting =>
    match sess.cut with
    | none => .accepting
    | some i =>
      match loop[i]? with
      | none => .accepting                       -- the client vanished after the last step: nothing raises
      | some s => if stepSurvives s then .accepting else .dead

def runSessions (loop : List Step) : Status → List Session → Status
  | st, [] => st
  | st, s :: rest => runSessions loop (handle loop st s) rest

end PwVerif.Server
