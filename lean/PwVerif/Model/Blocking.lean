/-
Family L, parent side — the blocking structure of `wait()` / `terminate()` (T-block target language)
and the flag machine that makes them idempotent on dead / never-run workers.
`Gen/Blocking.lean` is regenerated from /repo on every run.
-/
namespace PwVerif.Blocking

inductive OpKind where
  | join | poll | get | recvMsg | eventWait | accept
deriving Repr, DecidableEq

inductive Bound where
  | timeout     -- bounded by `timeout` / `remote_timeout`
  | guarded     -- a read executed only after a bounded poll reported readiness
  | peer        -- a reply from the server's control thread, which itself is bounded (remote kinds)
  | none        -- no bound at all
  | other       -- bounded by an expression the translator does not understand
deriving Repr, DecidableEq

structure Op where
  kind : OpKind
  bound : Bound
deriving Repr, DecidableEq

inductive Guard where
  | isNotNone   -- `if timeout is not None: remote_timeout = timeout if remote_timeout is None else min(remote_timeout, timeout)`
  | truthy      -- `if timeout:`  (wrong for timeout = 0)
  | absent      -- the method has no remote timeout
  | other
deriving Repr, DecidableEq

structure Method where
  ops : List Op
  guard : Guard
  returnsNotAlive : Bool      -- returns `True`, or `not alive` with `alive` read from the child just before
  checksNegative : Bool       -- rejects a negative timeout with ValueError
deriving Repr, DecidableEq

/-- every blocking call of the method is bounded -/
def bounded (m : Method) : Bool :=
  m.ops.all fun o => o.bound == .timeout || o.bound == .guarded || o.bound == .peer

/-- number of timeout-bounded waits: the method returns within that many timeouts (plus peer replies) -/
def factor (m : Method) : Nat := (m.ops.filter fun o => o.bound == .timeout).length

/-- the remote timeout the server side will use, as computed by the guard -/
def normRemote (g : Guard) (timeout remote : Option Nat) : Option Nat :=
  match g with
  | .isNotNone =>
    match timeout with
    | some t => (match remote with | none => some t | some r => some (min r t))
    | none => remote
  | .truthy =>
    match timeout with
    | some 0 => remote                 -- `if timeout:` is false for 0: the remote side waits without bound
    | some t => (match remote with | none => some t | some r => some (min r t))
    | none => remote
  | _ => remote

/-! ### flag machine of a dead / never-run worker -/

structure Flags where
  started : Bool
  dead : Bool
deriving Repr, DecidableEq

inductive Call where
  | wait | terminate | isAlive | close
deriving Repr, DecidableEq

/-- the early exits of `wait` / `terminate` / `is_alive` / `close`: `if not self._started or self._dead` -/
def callDead (f : Flags) (c : Call) : Flags × Bool :=
  match c with
  | .wait => (f, true)
  | .terminate => (f, true)
  | .isAlive => (f, false)
  | .close => (f, true)

def over (f : Flags) : Bool := !f.started || f.dead

def runCalls : Flags → List Call → List Bool
  | _, [] => []
  | f, c :: cs => (callDead f c).2 :: runCalls (callDead f c).1 cs

end PwVerif.Blocking
