/-
Family F — message framing (`pyworkers/remote.py`: `send_msg`, `recv_msg`).

Hand-written model, tied to the code by the correspondence check
`harness/c10.py` (scripted socket, same streams and cut lists through the real
`recv_msg` and through `recvN` below).

A socket is the byte stream still to be delivered plus an adversarial list of
*cuts*: the i-th `recv(n)` returns at most `cuts[i]` bytes (at least one while
data is left); once the stream is exhausted every `recv` returns `[]` (EOF is
sticky) — environment assumption E-F1, probed by the harness on a real
socketpair.

Import-free; every definition is structurally recursive so the kernel can
evaluate it.
-/
namespace PwVerif.Framing

abbrev Byte := Nat

structure Sock where
  data : List Byte
  cuts : List Nat
deriving Repr, DecidableEq

/-- One `sock.recv(n)`. Returns the chunk and the socket afterwards. -/
def Sock.recv (s : Sock) (n : Nat) : List Byte × Sock :=
  match s.cuts with
  | [] => (s.data.take n, { data := s.data.drop n, cuts := [] })
  | c :: cs =>
    let k := min n (c + 1)           -- a cut of `c` allows c+1 ≥ 1 bytes
    (s.data.take k, { data := s.data.drop k, cuts := cs })

/-- `struct.pack('!I', n)` -/
def be32 (n : Nat) : List Byte :=
  [n / 16777216 % 256, n / 65536 % 256, n / 256 % 256, n % 256]

/-- `struct.unpack('!I', b)[0]` for a 4-byte list. -/
def unbe32 : List Byte → Option Nat
  | [a, b, c, d] => some (16777216 * a + 65536 * b + 256 * c + d)   -- literals on the left: keeps kernel whnf from recursing on a 2^24 literal
  | _ => none

/-- `send_msg`: length prefix followed by the body (the body is the remote-pickled
    message; opaque bytes here). -/
def encode (m : List Byte) : List Byte := be32 m.length ++ m

def encodeAll : List (List Byte) → List Byte
  | [] => []
  | m :: ms => encode m ++ encodeAll ms

/-- The read-exactly loop of `recv_msg` (`_recv_exact` after the C10 fix):
    keep calling `recv(remaining)` until `remaining = 0`; an empty chunk means the
    peer closed → `none` (the code raises `ConnectionClosedError`).
    `fuel` bounds the number of `recv` calls; `fuel = n` always suffices because
    every non-empty chunk has at least one byte (theorem `recvExact_fuel`). When the
    fuel runs out with bytes still missing the model says `spin` — the outcome the
    property forbids. -/
inductive Exact where
  | got (bytes : List Byte)
  | closed
  | spin
deriving Repr, DecidableEq

def recvExact : (fuel : Nat) → (n : Nat) → Sock → List Byte → Exact × Sock
  | _, 0, s, acc => (.got acc, s)
  | 0, _ + 1, s, _ => (.spin, s)
  | fuel + 1, n + 1, s, acc =>
    let (chunk, s') := s.recv (n + 1)
    if chunk.isEmpty then (.closed, s')
    else recvExact fuel (n + 1 - chunk.length) s' (acc ++ chunk)

inductive Recv where
  | msg (body : List Byte)
  | closed
  | spin
deriving Repr, DecidableEq

/-- `recv_msg` up to (not including) unpickling of the body. -/
def recvMsg (s : Sock) : Recv × Sock :=
  match recvExact 4 4 s [] with
  | (.got hdr, s1) =>
    match unbe32 hdr with
    | none => (.closed, s1)                 -- struct.error → ConnectionClosedError
    | some len =>
      match recvExact len len s1 [] with
      | (.got body, s2) => (.msg body, s2)
      | (.closed, s2) => (.closed, s2)
      | (.spin, s2) => (.spin, s2)
  | (.closed, s1) => (.closed, s1)
  | (.spin, s1) => (.spin, s1)

/-- Call `recv_msg` `k` times (stop at the first non-message). -/
def recvN : Nat → Sock → List Recv
  | 0, _ => []
  | k + 1, s =>
    match recvMsg s with
    | (.msg b, s') => .msg b :: recvN k s'
    | (r, _) => [r]

/-! ### the sending side over a transport that writes short

`send_msg` hands the whole frame to `sock.sendall`. `sendall` is the loop below over `send`, which may accept any
non-zero number of bytes per call (`caps[i] + 1`, everything once the list is exhausted): a short write is legal for a
socket with a timeout, a non-blocking socket or a send interrupted by a signal. The harness gives the real `send_msg` a
transport whose `send` / `sendmsg` write short according to the same list and compares the bytes on the wire. -/

/-- `sock.sendall(data)` -/
def sendAll : (fuel : Nat) → List Byte → List Nat → List Byte → List Byte × List Nat
  | _, [], caps, wire => (wire, caps)
  | 0, _ :: _, caps, wire => (wire, caps)            -- unreachable with fuel = data.length
  | fuel + 1, b :: bs, caps, wire =>
    let k := match caps with
      | [] => (b :: bs).length
      | c :: _ => min (b :: bs).length (c + 1)
    sendAll fuel ((b :: bs).drop k) caps.tail (wire ++ (b :: bs).take k)

/-- `send_msg` for each message in turn; returns the bytes on the wire -/
def sendMsgs : List (List Byte) → List Nat → List Byte → List Byte
  | [], _, wire => wire
  | m :: ms, caps, wire =>
    let (wire', caps') := sendAll (encode m).length (encode m) caps wire
    sendMsgs ms caps' wire'

end PwVerif.Framing
