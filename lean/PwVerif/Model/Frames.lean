/-
Family P (part 2) — the load-time frame stack of `pyworkers/_remote_pickle/state.py`
(`RemoteState.context`, `break_patches`, `child_restored`, `close_current_ctx`,
`patched_setstate`) driven by the order in which `pickle.loads` calls the two hooks.

Hand-written model of the code *as it is* (frames are positional); tied to the code by
`harness/frames.py` (same graphs and patches through `remote_pickle.dumps/loads` and
through `load` below; compared: success / kind of failure, and for every opt-in object the
patch entries its `__setstate__` received).

Object graphs: `opt` = instance of a class with a remote-aware `__getstate__` whose state
is a dict (`fields`, in dict order); `plain` = anything that merely holds other values
(list, tuple, dict, ordinary object); `atom` = a leaf or a memo back-reference to a
non-opt-in value; `ref` = a memo back-reference to an opt-in object.

Environment assumption E-P1 (probed by the harness by wrapping the real hooks): unpickling
calls `recreate_obj_and_patch_setstate` for an object before loading its state, and its
`__setstate__` after all objects inside that state were restored.
-/
namespace PwVerif.Frames

inductive Node where
  | atom
  | ref                                    -- memo back-reference to an opt-in object (shared / cyclic):
                                           -- it is *named* as a direct child by the dumper but produces no hook call
  | plain (items : List Node)
  | opt (id : Nat) (fields : List (Nat × Node))
deriving Repr

inductive Patch where
  | val (v : Nat)                          -- a non-dict replacement value
  | dict (entries : List (Nat × Patch))    -- a dict patch for the child stored under that key
  | obj (id : Nat)                         -- entry already replaced by the restored child `id`
deriving Repr

abbrev Patches := List (Nat × Patch)

inductive Ev where
  | recreate (id : Nat) (names : List Nat)   -- names of direct opt-in children (dict order)
  | setstate (id : Nat)
deriving Repr

def isOpt : Node → Bool
  | .opt _ _ => true
  | .ref => true
  | _ => false

mutual
def events : Node → List Ev
  | .atom => []
  | .ref => []
  | .plain items => eventsL items
  | .opt id fields =>
    .recreate id (namesF fields) :: (eventsF fields ++ [.setstate id])
def eventsL : List Node → List Ev
  | [] => []
  | n :: ns => events n ++ eventsL ns
def eventsF : List (Nat × Node) → List Ev
  | [] => []
  | (_, n) :: fs => events n ++ eventsF fs
def namesF : List (Nat × Node) → List Nat
  | [] => []
  | (k, n) :: fs => if isOpt n then k :: namesF fs else namesF fs
end

/-- `_patches_t(parent_i, name, patches)`; `parent1 = parent_i + 1` (0 encodes -1). -/
structure Frame where
  parent1 : Nat
  name : Option Nat
  patches : Patches
deriving Repr

inductive Err where
  | assertChildRestored      -- `assert patches_iter() == len(stack) - 1`
  | assertParentName         -- `assert bool(parent_patches) == bool(obj_name)`
  | assertExit               -- the two assertions of `context.__exit__`
  | indexError               -- `stack[idx]` out of range
deriving Repr, DecidableEq

structure St where
  stack : List Frame := []
  iter1 : Nat := 0                 -- `iter + 1`
  unused : Bool := true
  delivered : List (Nat × Patches) := []   -- (object id, patch entries merged into its state), in setstate order
deriving Repr

def lookup (k : Nat) : Patches → Option Patch
  | [] => none
  | (k', p) :: rest => if k = k' then some p else lookup k rest

def setEntry (k : Nat) (p : Patch) : Patches → Patches
  | [] => [(k, p)]
  | (k', q) :: rest => if k = k' then (k, p) :: rest else (k', q) :: setEntry k p rest

def dummy : Frame := ⟨0, none, []⟩

def curFrame? (s : St) : Option Frame :=
  if s.iter1 = 0 then some dummy else s.stack[s.iter1 - 1]?

/-- `context.__init__` + `__enter__` -/
def enter (p : Patches) : St :=
  if p.isEmpty then {} else { stack := [⟨0, none, p⟩], iter1 := 1 }

/-- sub-frames built by `break_patches` -/
def subFrames (it1 : Nat) (patches : Patches) : List Nat → Nat → List Frame
  | [], _ => []
  | name :: rest, k =>
    (match lookup name patches with
     | some (.dict sub) => (⟨it1 + k, some name, sub⟩ : Frame)   -- parent_i = it + k
     | _ => dummy) :: subFrames it1 patches rest (k + 1)

def insertAt (l : List Frame) (i : Nat) (xs : List Frame) : List Frame :=
  l.take i ++ xs ++ l.drop i

def updatePatches (l : List Frame) (i : Nat) (f : Patches → Patches) : List Frame :=
  match l, i with
  | [], _ => []
  | fr :: rest, 0 => { fr with patches := f fr.patches } :: rest
  | fr :: rest, i + 1 => fr :: updatePatches rest i f

def step (s : St) : Ev → Except Err St
  | .recreate _ names =>
    -- break_patches(children_names)
    match curFrame? s with
    | none => .error .indexError
    | some cur =>
    let sub := subFrames s.iter1 cur.patches names 0
    if sub.isEmpty then .ok s
    else .ok { s with stack := insertAt s.stack s.iter1 sub, iter1 := s.iter1 + 1 }
  | .setstate id =>
    match curFrame? s with
    | none => .error .indexError
    | some cur =>
    -- patched_setstate: state.update(current_patches())
    let s := { s with delivered := s.delivered ++ [(id, cur.patches)] }
    -- child_restored
    if s.iter1 ≠ s.stack.length then .error .assertChildRestored
    else
      let s := { s with unused := false }
      match (if cur.parent1 = 0 then some [] else (s.stack[cur.parent1 - 1]?).map (·.patches)) with
      | none => .error .indexError
      | some (parentPatches : Patches) =>
      if (!parentPatches.isEmpty) ≠ cur.name.isSome then .error .assertParentName
      else
        let stack :=
          match cur.name with
          | some nm =>
            if parentPatches.isEmpty then s.stack
            else updatePatches s.stack (cur.parent1 - 1) (setEntry nm (.obj id))
          | none => s.stack
        -- close_current_ctx
        if s.iter1 = 0 then .ok { s with stack := stack }
        else .ok { s with stack := stack.eraseIdx (s.iter1 - 1), iter1 := s.iter1 - 1 }

def runEvents : St → List Ev → Except Err St
  | s, [] => .ok s
  | s, e :: es =>
    match step s e with
    | .ok s' => runEvents s' es
    | .error err => .error err

/-- `context.__exit__` on the normal path -/
def exit (s : St) : Except Err St :=
  if !s.unused && (s.iter1 ≠ 0 || !s.stack.isEmpty) then .error .assertExit else .ok s

/-- `remote_pickle.loads(dumps(g), extra_kwargs=p)` as far as the frame stack is concerned. -/
def load (p : Patches) (g : Node) : Except Err St :=
  match runEvents (enter p) (events g) with
  | .ok s => exit s
  | .error e => .error e

/-- observable outcome of a load: the assertion/index error it hits, if any -/
def outcome (r : Except Err St) : Option Err :=
  match r with
  | .ok _ => none
  | .error e => some e

/-- what each object's `__setstate__` received as patch entries (setstate order) -/
def deliveredOf (r : Except Err St) : List (Nat × Patches) :=
  match r with
  | .ok s => s.delivered
  | .error _ => []

end PwVerif.Frames
