/-
Family P (part 1) — who opts in to remote pickling, and which reducer a pickler uses.

`checkType` follows `SupportRemoteGetStateMeta.__check_type_cached`
(`pyworkers/remote_pickle.py`) statement by statement over the MRO (without `object`).
`remoteChoice` / `stdChoice` follow the lookup order of `pickle.Pickler.save` with the
private dispatch table built by `RemotePickler36.__init__`
(`pyworkers/_remote_pickle/remote_pickler_3_6.py`).

Hand-written; tied to the code by `harness/c13.py` (generated class hierarchies through the
real metaclass / `issubclass`, byte-level comparison of pickles).
-/
namespace PwVerif.Mro

/-- what a class's own `__dict__` says about `__getstate__` -/
inductive GS where
  | none      -- does not define __getstate__
  | remote    -- defines it with a `remote` parameter
  | kwargs    -- defines it with **kwargs (pass-through) and no `remote`
  | plain     -- defines it without `remote` and without **kwargs
deriving Repr, DecidableEq

structure ClassInfo where
  definesReduce : Bool     -- own __dict__ has __reduce__ or __reduce_ex__
  gs : GS
deriving Repr, DecidableEq

inductive Res where
  | ok (optIn : Bool)
  | warning                -- `raise Warning(...)`: inconsistent chain
deriving Repr, DecidableEq

/-- the loop of `__check_type_cached` with its two flags -/
def checkLoop : List ClassInfo → (allowRemote hasRemote : Bool) → Res
  | [], _, has => .ok has
  | c :: rest, allow, has =>
    if c.definesReduce then .ok false          -- has_remote = False; break
    else match c.gs with
      | .remote => if !allow then .warning else checkLoop rest allow true
      | .kwargs => checkLoop rest allow has     -- continue
      | .plain => checkLoop rest false has      -- allow_remote = False
      | .none => checkLoop rest allow has

def checkType (mro : List ClassInfo) : Res := checkLoop mro true false

/-! ### declarative reading -/

/-- classes before the first one that defines `__reduce__`/`__reduce_ex__` -/
def prefixOf : List ClassInfo → List ClassInfo
  | [] => []
  | c :: rest => if c.definesReduce then [] else c :: prefixOf rest

def hasReduce (mro : List ClassInfo) : Bool := mro.any (·.definesReduce)

/-- a plain `__getstate__` shadows (comes before) a remote-aware one -/
def inconsistent : List ClassInfo → Bool
  | [] => false
  | c :: rest =>
    if c.gs = .plain then rest.any (·.gs = .remote) || inconsistent rest
    else inconsistent rest

def spec (mro : List ClassInfo) : Res :=
  let p := prefixOf mro
  if inconsistent p then .warning
  else if hasReduce mro then .ok false
  else .ok (p.any (·.gs = .remote))

/-! ### reducer choice -/

structure Obj where
  builtin   : Bool   -- type handled by the pickler's own type dispatch (int, str, list, dict, tuple, ...)
  inCopyreg : Bool   -- type registered in copyreg.dispatch_table
  registered : Bool  -- type is in SupportRemoteGetStateMeta.supported_classes (checked opt-in at class creation / first issubclass)
  optIn     : Bool   -- issubclass(type, SupportRemoteGetState), i.e. checkType = ok true
deriving Repr, DecidableEq

inductive Choice where
  | builtinSave
  | copyregReducer
  | remoteReduce (remoteFlag : Bool)   -- object.__reduce_ex__ re-implemented, __getstate__(remote=flag)
  | reduceEx                           -- obj.__reduce_ex__(protocol): __getstate__() without the flag
deriving Repr, DecidableEq

def stdChoice (o : Obj) : Choice :=
  if o.builtin then .builtinSave
  else if o.inCopyreg then .copyregReducer
  else .reduceEx

/-- `RemotePickler(remote=r)`: private table = copy of copyreg's table, then every registered
    class ↦ remote_reduce; for `r = true` the table also answers dynamically for unregistered
    opt-in types that are not in the table. -/
def remoteChoice (r : Bool) (o : Obj) : Choice :=
  if o.builtin then .builtinSave
  else if o.registered then .remoteReduce r
  else if o.inCopyreg then .copyregReducer
  else if r && o.optIn then .remoteReduce r
  else .reduceEx

/-- an `Obj` description is coherent: registered classes are opt-in; builtins never are -/
def coherent (o : Obj) : Bool := (!o.registered || o.optIn) && (!o.builtin || (!o.optIn && !o.registered))

end PwVerif.Mro
