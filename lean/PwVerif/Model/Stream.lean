/-
Family S — the persistent worker's argument merge and result stream
(`persistent_thread.py` / `persistent_process.py` / `persistent_remote.py`: `do_work`,
`_send_result`, `_cleanup`; `persistent.py`: `next_result`, `results_iter`).

Hand-written; tied to the code by `harness/c05.py` / `harness/c06.py` (same defaults,
enqueues and crash points through real workers and through `childRun`; the per-iteration
phases are those of the generated loop bodies in `Gen/RunLoops.lean`, whose line-event
behaviour is validated by the injection harness).
-/
namespace PwVerif.Stream

/-- `args = list(deepcopy(defaults)); args[0:len(extra)] = extra` -/
def merge (defaults extra : List Nat) : List Nat := extra ++ defaults.drop extra.length

/-- `kwargs = deepcopy(defaults); kwargs.update(extra)` as association lists (later wins in lookup order:
    extras first) -/
def kwmerge (defaults extra : List (Nat × Nat)) : List (Nat × Nat) :=
  extra ++ defaults.filter (fun d => !extra.any (fun e => e.1 == d.1))

structure Enq where
  args : List Nat
  kw : List (Nat × Nat)
deriving Repr, DecidableEq

inductive Msg where
  | item (counter : Nat) (value : Nat)    -- (counter, True, value, id)
  | endMarker (counter : Nat)             -- (counter, False, None, id)
deriving Repr, DecidableEq

/-- where inside iteration `j` the worker is stopped -/
inductive Phase where
  | beforeCall     -- waiting for / unpacking the input, merging the arguments
  | inTarget       -- the target is running
  | beforeBump     -- target returned, `_counter += 1` not yet executed
  | beforeSend     -- counter incremented, message not yet written
deriving Repr, DecidableEq

inductive Stop where
  | graceful       -- exception / terminate: `_cleanup` still writes the end marker
  | killed         -- SIGKILL: nothing more is written; the pipe just ends (EOF)
deriving Repr, DecidableEq

structure Out where
  msgs : List Msg := []
  counter : Nat := 0
  eof : Bool := true            -- the writer's end is closed afterwards (always, once the worker is dead)
deriving Repr, DecidableEq

/-- the target as a function of the merged arguments -/
abbrev Target := List Nat → List (Nat × Nat) → Nat

def value (f : Target) (d : List Nat) (kd : List (Nat × Nat)) (e : Enq) : Nat :=
  f (merge d e.args) (kwmerge kd e.kw)

/-- the child's loop over the enqueued inputs, from counter `c`; `crash = some (j, p, how)`: stopped in
    iteration `j` (0-based, relative to this call) at phase `p`. Without a crash the loop ends with the
    release marker and `_cleanup` writes the end marker. -/
def childLoop (f : Target) (d : List Nat) (kd : List (Nat × Nat)) :
    List Enq → Nat → Option (Nat × Phase × Stop) → Out
  | [], c, _ => { msgs := [.endMarker c], counter := c }
  | e :: rest, c, crash =>
    match crash with
    | some (0, p, how) =>
      let c' := if p = .beforeSend then c + 1 else c
      match how with
      | .graceful => { msgs := [.endMarker c'], counter := c' }
      | .killed => { msgs := [], counter := c' }
    | some (j + 1, p, how) =>
      let o := childLoop f d kd rest (c + 1) (some (j, p, how))
      { o with msgs := .item (c + 1) (value f d kd e) :: o.msgs }
    | none =>
      let o := childLoop f d kd rest (c + 1) none
      { o with msgs := .item (c + 1) (value f d kd e) :: o.msgs }

def childRun (f : Target) (d : List Nat) (kd : List (Nat × Nat)) (ins : List Enq)
    (crash : Option (Nat × Phase × Stop)) : Out := childLoop f d kd ins 0 crash

/-- values obtainable through `results_iter()` after death: items up to the end marker / EOF -/
def items : List Msg → List Nat
  | [] => []
  | .item _ v :: rest => v :: items rest
  | .endMarker _ :: _ => []

def counters : List Msg → List Nat
  | [] => []
  | .item c _ :: rest => c :: counters rest
  | .endMarker _ :: _ => []

end PwVerif.Stream
