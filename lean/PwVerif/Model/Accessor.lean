/-!
# The outcome accessor of a thread worker racing with the end of the work

`ThreadWorker._get_result` runs in the caller's thread while the child thread may be finishing: the child writes
`_result` itself and then ends. The accessor fabricates the outcome `(False, None)` ("died without recording an
outcome") when a conjunction of reads holds; the reads are evaluated left to right, the child may make progress between
any two of them. The model: the child's progress is a phase (running, outcome recorded, dead); each read of the accessor
sees the phase the child is in at that moment; the phases seen by successive reads are monotone. The order of the reads
is regenerated from `/repo` (T-acc, `Gen/Accessor.lean`).
-/
namespace PwVerif.Accessor

inductive Read where
  | resultIsNone    -- `self._result is None`
  | started         -- `self._started`
  | notAlive        -- `not self.is_alive()`
deriving DecidableEq, Repr

/-- progress of the child; a child that dies without recording an outcome (exception landed outside of the `try`)
    goes from `running` to `dead` directly -/
inductive Phase where
  | running | recorded | dead
deriving DecidableEq, Repr

def Phase.rank : Phase → Nat
  | .running => 0 | .recorded => 1 | .dead => 2

/-- what the parent reads -/
def resultIsNone (records : Bool) : Phase → Bool
  | .running => true
  | .recorded => false
  | .dead => !records
def notAlive : Phase → Bool
  | .dead => true
  | _ => false

/-- the phases a child that records / does not record an outcome can be seen in -/
def possible (records : Bool) : Phase → Bool
  | .recorded => records
  | _ => true

def monotone : List Phase → Bool
  | a :: b :: rest => a.rank ≤ b.rank && monotone (b :: rest)
  | _ => true

/-- the conjunction, left to right with short-circuit; `ps` = the phase at each read (reads that are not evaluated
    do not matter) -/
def holds (records : Bool) : List Read → List Phase → Bool
  | [], _ => true
  | r :: rs, p :: ps =>
    (match r with
     | .resultIsNone => resultIsNone records p
     | .started => true
     | .notAlive => notAlive p) && holds records rs ps
  | _ :: _, [] => false

inductive Outcome where
  | none          -- `None`: no outcome yet
  | own           -- what the work itself recorded
  | fabricated    -- `(False, None)`
deriving DecidableEq, Repr

/-- the accessor: evaluates the conjunction (phases `ps`), fabricates an outcome if it holds, returns `_result` as it is
    at the later moment `last` -/
def getResult (records : Bool) (order : List Read) (ps : List Phase) (last : Phase) : Outcome :=
  if holds records order ps then .fabricated
  else if resultIsNone records last then .none else .own

end PwVerif.Accessor
