/-
Family R — the client side of the remote handshake (`remote.py`: `RemoteWorker._start`,
`_run_frontend`): the constructor blocks on an event that the frontend thread sets; every way the
handshake can fail must end in that event being set with the failure recorded.
-/
namespace PwVerif.Handshake

inductive StepKind where
  | send | recv | connect
deriving Repr, DecidableEq

structure Step where
  kind : StepKind
  insideTry : Bool
deriving Repr, DecidableEq

/-- what the handler around the handshake catches -/
inductive Catches where
  | exception | baseException | closedOnly | other | nothing
deriving Repr, DecidableEq

/-- how a step can fail -/
inductive Failure where
  | closed      -- ConnectionClosedError (peer closed / reset inside send_msg / recv_msg)
  | osError     -- a bare socket error, e.g. ConnectionRefusedError from connect()
  | other       -- any other Exception (e.g. the answer cannot be unpickled, wrong shape)
deriving Repr, DecidableEq

structure Frontend where
  steps : List Step
  catches : Catches
  handlerRecordsError : Bool
  handlerSetsEvent : Bool
  startWaitsForEvent : Bool
  startReraises : Bool
deriving Repr, DecidableEq

inductive Ctor where
  | returnsWorker
  | raises
  | hangs
deriving Repr, DecidableEq

def caught (c : Catches) (f : Failure) : Bool :=
  match c, f with
  | .exception, _ => true
  | .baseException, _ => true
  | .closedOnly, .closed => true
  | _, _ => false

/-- which failures a step of a kind can produce -/
def possible (k : StepKind) (f : Failure) : Bool :=
  match k, f with
  | .connect, .osError => true
  | .connect, _ => false
  | .send, .closed => true
  | .send, _ => false
  | .recv, .closed => true
  | .recv, .other => true
  | .recv, .osError => false

/-- the constructor's fate when step `i` fails with `f` (no failure: `none`) -/
def ctor (fe : Frontend) (fault : Option (Nat × Failure)) : Ctor :=
  match fault with
  | none => .returnsWorker
  | some (i, f) =>
    match fe.steps[i]? with
    | none => .returnsWorker
    | some s =>
      if s.insideTry && caught fe.catches f && fe.handlerSetsEvent then
        (if fe.handlerRecordsError && fe.startReraises then .raises else .returnsWorker)
      else if fe.startWaitsForEvent then .hangs    -- the frontend thread died, nobody sets the event
      else .returnsWorker

end PwVerif.Handshake
