/-
Family S, parent side of the remote kind - `PersistentRemoteWorker._fetch_results`
(`persistent_remote.py`): the thread that forwards what the backend writes on the data socket to the
worker's local results pipe, and has to make the stream of partial results *end* whatever happens to the
connection.

The structure of the function (what each branch does, in which order it forwards and asserts) is
**regenerated from /repo** into `Gen/Forward.lean` (`harness/translate.py`, T-fwd); the semantics below is
validated by `harness/c06.py`, which runs the real `_fetch_results` over scripted message sequences.
-/
namespace PwVerif.Forward

/-- what arrives on the data socket, in order; after the list the connection is closed -/
inductive In where
  | item (c : Nat)      -- (counter, True, value, id)
  | endM (c : Nat)      -- (counter, False, None, id): the child's own end-of-stream message
  | final               -- the 2-tuple final result (from the child, or fabricated by the server after a forced kill)
deriving Repr, DecidableEq

/-- what is put on the local results pipe -/
inductive Out where
  | item (c : Nat)
  | endM (c : Nat)
deriving Repr, DecidableEq

inductive EndAssert where
  | eqCounter      -- `assert remote_counter == counter`
  | eqOrNext       -- `assert remote_counter in (counter, counter + 1)`
  | none
deriving Repr, DecidableEq

structure Cfg where
  closedPutsMarker : Bool       -- on ConnectionClosedError: `if not signalled: put(end marker)`
  endPutBeforeAssert : Bool     -- the child's end message is forwarded (and the flag set) before the asserts
  endAssert : EndAssert
  endSetsFlag : Bool            -- `last_partial_result_signalled = True` after forwarding the child's end message
  itemPutBeforeAssert : Bool
  itemAssertsCounter : Bool     -- `assert counter == remote_counter`
  afterLoopPutsMarker : Bool    -- after the loop: `if not signalled: put(end marker)`
deriving Repr, DecidableEq

structure St where
  out : List Out := []
  counter : Nat := 0
  signalled : Bool := false
  crashed : Bool := false       -- an assertion failed: the forwarding thread died where it stood
deriving Repr, DecidableEq

def endOk (a : EndAssert) (rc counter : Nat) : Bool :=
  match a with
  | .eqCounter => rc == counter
  | .eqOrNext => rc == counter || rc == counter + 1
  | .none => true

def putMarker (s : St) : St := { s with out := s.out ++ [.endM s.counter], signalled := true }

def afterLoop (cfg : Cfg) (s : St) : St :=
  if cfg.afterLoopPutsMarker && !s.signalled then putMarker s else s

def fwd (cfg : Cfg) : List In → St → St
  | [], s =>                     -- `recv_msg` raises ConnectionClosedError
    afterLoop cfg (if cfg.closedPutsMarker && !s.signalled then putMarker s else s)
  | .final :: _, s => afterLoop cfg s
  | .endM rc :: rest, s =>
    let ok := endOk cfg.endAssert rc s.counter
    let s' : St := { s with out := s.out ++ [.endM rc], signalled := s.signalled || cfg.endSetsFlag }
    if cfg.endPutBeforeAssert then
      (if ok then fwd cfg rest s' else { s' with crashed := true })
    else
      (if ok then fwd cfg rest s' else { s with crashed := true })
  | .item rc :: rest, s =>
    let ok := !cfg.itemAssertsCounter || s.counter + 1 == rc
    let s' : St := { s with counter := s.counter + 1, out := s.out ++ [.item rc] }
    if cfg.itemPutBeforeAssert then
      (if ok then fwd cfg rest s' else { s' with crashed := true })
    else
      (if ok then fwd cfg rest s' else { s with counter := s.counter + 1, crashed := true })

/-- items with counters `c0+1 .. c0+j` -/
def itemsFrom (c0 : Nat) : Nat → List In
  | 0 => []
  | j + 1 => .item (c0 + 1) :: itemsFrom (c0 + 1) j

def outItemsFrom (c0 : Nat) : Nat → List Out
  | 0 => []
  | j + 1 => .item (c0 + 1) :: outItemsFrom (c0 + 1) j

/-- every stream a backend (or the server on its behalf) can write before the connection closes:
    `j` results, then possibly the child's end message (its counter is `j`, or `j+1` when it was stopped
    between counting and sending), then possibly the final result -/
def stream (j : Nat) (e : Option Nat) (f : Bool) : List In :=
  itemsFrom 0 j ++ (match e with | none => [] | some c => [.endM c]) ++ (if f then [.final] else [])

def WF (j : Nat) (e : Option Nat) : Prop :=
  match e with
  | none => True
  | some c => c = j ∨ c = j + 1

/-- what the proof needs of the configuration (decided on the regenerated one) -/
def Good (cfg : Cfg) : Bool :=
  cfg.afterLoopPutsMarker && cfg.endSetsFlag && cfg.endAssert != .eqCounter

end PwVerif.Forward
