import PwVerif.Model.Py
/-
Family L, parent side — what the public accessors report about a dead worker
(`worker.py:243-289` decode of `_get_result()`; `ThreadWorker._get_result`,
`ProcessWorker._get_result`, `RemoteWorker._fetch_results`).

Hand-written; tied to the code by `harness/inject.py` (the observation computed here from the
child's final state is compared with `has_error` / `result` / `error` of the real worker).
-/
namespace PwVerif.Lifecycle
open PwVerif.Py

inductive Kind where
  | thread | process | remote
deriving Repr, DecidableEq

/-- `(has_error, error)`; `result` is the value iff `has_error = some false` -/
structure Obs where
  hasError : Option Bool
  error : Option Exc
deriving Repr, DecidableEq

def decode (r : Option Exc) : Obs :=
  match r with
  | none => ⟨some false, none⟩          -- (True, value)
  | some .nothing => ⟨some true, none⟩  -- (False, None)
  | some e => ⟨some true, some e⟩       -- (False, e)

/-- `(False, None)`: dead without a reportable outcome -/
def unreported : Obs := ⟨some true, none⟩

def lastFinal : List Msg → Option (Option Exc)
  | [] => none
  | .final r _ :: rest => (match lastFinal rest with | some r' => some r' | none => some r)
  | _ :: rest => lastFinal rest

/-- user state carried by the last final message of a process worker -/
def lastFinalState : List Msg → Option Nat
  | [] => none
  | .final _ u :: rest => (match lastFinalState rest with | some u' => some u' | none => some u)
  | _ :: rest => lastFinalState rest

/-- remote: the user-state message that follows the result message -/
def sockState : List Msg → Option Nat
  | [] => none
  | .userState v :: _ => some v
  | _ :: rest => sockState rest

def firstSock : List Msg → Option Msg
  | [] => none
  | .final r u :: _ => some (.final r u)
  | .noneResult :: _ => some .noneResult
  | _ :: rest => firstSock rest

/-- what the parent sees once the worker is dead -/
def observe (k : Kind) (st : St) : Obs :=
  match k with
  | .thread =>
    match st.result with
    | none => unreported                 -- post-mortem fallback of ThreadWorker._get_result
    | some r => decode r
  | .process =>
    match lastFinal st.comms with
    | none => unreported                 -- drain loop found nothing: (False, None)
    | some r => decode r
  | .remote =>
    match firstSock st.comms with
    | none => unreported                 -- connection closed before a result: (False, None)
    | some (.final r _) => decode r
    | some _ => ⟨none, none⟩             -- the child sent `None` as its result: `_result` stays None

/-- the parent's `user_state` after the worker's death (0 = still the initial value) -/
def parentState (k : Kind) (st : St) : Nat :=
  match k with
  | .thread => st.ustate                       -- shared memory
  | .process => (lastFinalState st.comms).getD 0
  | .remote =>
    match firstSock st.comms with
    | some (.final _ _) => (sockState st.comms).getD 0
    | _ => 0

/-- the outcome a direct call of the target would give -/
def own (t : Target) : Obs :=
  match t with
  | .returns => ⟨some false, none⟩
  | .raisesUser => ⟨some true, some .user⟩
  | .raisesBase => ⟨some true, some .base⟩

def terminated : Obs := ⟨some true, some .wte⟩

end PwVerif.Lifecycle

namespace PwVerif.Lifecycle
open PwVerif.Py

/-! ### parent-side cache of `ProcessWorker._get_result` (post mortem)

`_result` is `none` until the first accessor after death drains the pipe; a message that
cannot be received or rebuilt (`undecodable`) counts as "nothing reported". -/

structure Parent where
  cached : Option Obs := none
  pipe : List Msg := []            -- what is still unread in `_comms` (after the runtime info)
  undecodable : Bool := false      -- the final message cannot be rebuilt on this side / is truncated
deriving Repr, DecidableEq

/-- one accessor call (`has_error` / `result` / `error`) on a dead process worker -/
def Parent.get (p : Parent) : Parent × Obs :=
  match p.cached with
  | some o => (p, o)
  | none =>
    let o := if p.undecodable then unreported else
      match lastFinal p.pipe with
      | none => unreported
      | some r => decode r
    ({ p with cached := some o, pipe := [] }, o)

def Parent.gets : Parent → Nat → List Obs
  | _, 0 => []
  | p, n + 1 => let (p', o) := p.get; o :: p'.gets n

def Target.all : List Target := [.returns, .raisesUser, .raisesBase]
def Async.all : List Async := [.raiseWte false, .raiseWte true, .kill]


/-- Evaluate `check undisturbedState disturbedState` for **every** reachable arrival point `k` (line events
    after the statement at line `start`, from which on the parent can call `terminate()`) and **every**
    delay `d ≤ number of line events after k` of a deferred delivery (a larger delay means the exception is
    never raised in the working thread, which `d = number of remaining events` already gives). -/
def deferredAll (prog : List Stmt) (env : Env) (inputs : List Input) (start : Nat) (check : St → St → Bool) : Bool :=
  match run prog env inputs none .kill with
  | (st0, _) =>
    let tr := st0.trace
    let first := tr.idxOf start + 1
    (List.range (tr.length - first)).all fun i =>
      (List.range (tr.length - (first + i) + 1)).all fun d =>
        match run prog env inputs (some (first + i)) (.deferred d) with
        | (st, _) => check st0 st


theorem deferredAll_mono {prog : List Stmt} {env : Env} {inputs : List Input} {start : Nat}
    {f g : St → St → Bool} (h : ∀ a b, f a b = true → g a b = true)
    (hf : deferredAll prog env inputs start f = true) : deferredAll prog env inputs start g = true := by
  unfold deferredAll at *
  simp only [List.all_eq_true] at *
  intro i hi d hd
  exact h _ _ (hf i hi d hd)

end PwVerif.Lifecycle
