/-
`Worker.create` naming rule (`worker.py:119-133`), the not-run rule (`worker.py:74-98`) and the
result-pipe capacity protocol of `ProcessWorker` (`process.py:69-80, 117-135`).
Hand-written; tied by `harness/c02.py`.
-/
namespace PwVerif.Create

inductive WType where
  | thread | process | remote
deriving Repr, DecidableEq

def modName : WType → String
  | .thread => "thread" | .process => "process" | .remote => "remote"

def capitalize (s : String) : String :=
  match s.toList with
  | [] => ""
  | c :: cs => String.ofList (c.toUpper :: cs)

/-- `cls_name = mod_name[0].upper() + mod_name[1:] + 'Worker'`, prefixed with `Persistent` for persistent bases -/
def className (t : WType) (persistent : Bool) : String :=
  (if persistent then "Persistent" else "") ++ capitalize (modName t) ++ "Worker"

/-- `if run is None: run = bool(target)` -/
def willRun (run : Option Bool) (targetTruthy : Bool) : Bool :=
  match run with
  | some r => r
  | none => targetTruthy

/-- outcome of a worker that is not run: `_result = (True, None)`: (is_alive, has_error, result is None) -/
def notRunOutcome : Bool × Bool × Bool := (false, false, true)

/-! ### result transport and size -/

inductive Kind where
  | thread | process | remote
deriving Repr, DecidableEq

/-- does `wait()` ever succeed for a result of `size` bytes when the pipe buffers `cap` bytes?
    thread: shared memory; remote: the parent-side frontend thread reads the socket while the child
    sends; process: the parent reads `_comms` only after the child has been joined, so the child
    must be able to finish its `send` without a reader. -/
def delivered (k : Kind) (size cap : Nat) : Bool :=
  match k with
  | .thread => true
  | .remote => true
  | .process => size ≤ cap

end PwVerif.Create
