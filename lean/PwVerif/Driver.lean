import PwVerif.Model.Framing
import PwVerif.Model.Registry
/-!
Line-protocol driver: `lake env lean --run PwVerif/Driver.lean < cases.txt`.
One case per input line, one canonical observation per output line. Used by the
correspondence checks in `/verif/harness` (the same cases are run through the real
implementation and the two output streams are diffed).

Only this file uses `partial`/`IO`; nothing here is mentioned by a theorem.
-/
namespace PwVerif.Driver

def hexVal (c : Char) : Option Nat :=
  if '0' ≤ c ∧ c ≤ '9' then some (c.toNat - '0'.toNat)
  else if 'a' ≤ c ∧ c ≤ 'f' then some (c.toNat - 'a'.toNat + 10)
  else none

def parseHex : List Char → Option (List Nat)
  | [] => some []
  | [_] => none
  | a :: b :: rest => do
    let x ← hexVal a
    let y ← hexVal b
    let r ← parseHex rest
    pure ((16 * x + y) :: r)

def hexDigit (n : Nat) : Char :=
  if n < 10 then Char.ofNat (n + '0'.toNat) else Char.ofNat (n - 10 + 'a'.toNat)

def toHex (bs : List Nat) : String :=
  String.ofList (bs.flatMap fun b => [hexDigit (b / 16), hexDigit (b % 16)])

def parseNats (s : String) : Option (List Nat) :=
  if s == "-" then some [] else (s.splitOn ",").mapM (·.toNat?)

def fieldHex (s : String) : Option (List Nat) :=
  if s == "-" then some [] else parseHex s.toList

/-! ## c10: `c10 <hexstream|-> <cuts csv|-> <calls>` -/
open PwVerif.Framing in
def c10 (args : List String) : String :=
  match args with
  | [d, c, k] =>
    match fieldHex d, parseNats c, k.toNat? with
    | some data, some cuts, some k =>
      let rs := recvN k ⟨data, cuts⟩
      "|".intercalate (rs.map fun
        | .msg b => "msg:" ++ toHex b
        | .closed => "closed"
        | .spin => "spin")
    | _, _, _ => "bad-op"
  | _ => "bad-op"

/-! ## c19: `c19 <op> <op> ...` with ops `c1 c0 f<w> r<w> a x`;
output per `a`/`x`: `<sorted yielded ids>;<registry size after>` joined by `|` -/
def insertSorted (x : Nat) : List Nat → List Nat
  | [] => [x]
  | y :: ys => if x ≤ y then x :: y :: ys else y :: insertSorted x ys
def sortNats (l : List Nat) : List Nat := l.foldr insertSorted []

open PwVerif.Registry in
def c19Op (t : String) : Option Op :=
  if t == "c1" then some (.create true)
  else if t == "c0" then some (.create false)
  else if t == "a" then some .active
  else if t == "x" then some .autoclose
  else if t.startsWith "f" then (t.drop 1).toNat?.map .finish
  else if t.startsWith "r" then (t.drop 1).toNat?.map .restart
  else none

open PwVerif.Registry in
def c19 (args : List String) : String :=
  match args.mapM c19Op with
  | none => "bad-op"
  | some ops =>
    let rec go (s : St) (ops : List Op) (acc : List String) : List String :=
      match ops with
      | [] => acc.reverse
      | op :: rest =>
        let (s', out) := step s op
        match op with
        | .active | .autoclose =>
          go s' rest ((",".intercalate ((sortNats out).map toString) ++ ";" ++ toString s'.reg.length) :: acc)
        | _ => go s' rest acc
    "|".intercalate (go {} ops [])

def step (line : String) : String :=
  match (line.trimAscii.toString.splitOn " ").filter (· ≠ "") with
  | "c10" :: args => c10 args
  | "c19" :: args => c19 args
  | _ => "bad-op"

partial def loop (h : IO.FS.Stream) : IO Unit := do
  let line ← h.getLine
  if line.isEmpty then return ()
  IO.println (step line)
  loop h

end PwVerif.Driver

def main : IO Unit := do PwVerif.Driver.loop (← IO.getStdin)
