import PwVerif.Model.Framing
import PwVerif.Model.Registry
import PwVerif.Model.Frames
import PwVerif.Model.Mro
import PwVerif.Model.Pool
import PwVerif.Model.Lifecycle
import PwVerif.Model.Stream
import PwVerif.Model.Create
import PwVerif.Model.Contexts
import PwVerif.Gen.RunLoops
import PwVerif.Gen.Forward
import PwVerif.Gen.PoolReset
import PwVerif.Gen.Accessor
/-!
Line-protocol driver: `lake env lean --run PwVerif/Driver.lean < cases.txt`.
One case per input line, one canonical observation per output line. Used by the
correspondence checks in `/verif/harness` (the same cases are run through the real
implementation and the two output streams are diffed).

Only this file uses `partial`/`IO`; nothing here is mentioned by a theorem.
-/
namespace PwVerif.Driver

def hexVal (c : Char) : Option Nat :=
  if '0' ≤ c ∧ c ≤ '9' then some (c.toNat - '0'.toNat)
  else if 'a' ≤ c ∧ c ≤ 'f' then some (c.toNat - 'a'.toNat + 10)
  else none

def parseHex : List Char → Option (List Nat)
  | [] => some []
  | [_] => none
  | a :: b :: rest => do
    let x ← hexVal a
    let y ← hexVal b
    let r ← parseHex rest
    pure ((16 * x + y) :: r)

def hexDigit (n : Nat) : Char :=
  if n < 10 then Char.ofNat (n + '0'.toNat) else Char.ofNat (n - 10 + 'a'.toNat)

def toHex (bs : List Nat) : String :=
  String.ofList (bs.flatMap fun b => [hexDigit (b / 16), hexDigit (b % 16)])

def parseNats (s : String) : Option (List Nat) :=
  if s == "-" then some [] else (s.splitOn ",").mapM (·.toNat?)

def fieldHex (s : String) : Option (List Nat) :=
  if s == "-" then some [] else parseHex s.toList

/-! ## c10: `c10 <hexstream|-> <cuts csv|-> <calls>` -/
open PwVerif.Framing in
def c10 (args : List String) : String :=
  match args with
  | [d, c, k] =>
    match fieldHex d, parseNats c, k.toNat? with
    | some data, some cuts, some k =>
      let rs := recvN k ⟨data, cuts⟩
      "|".intercalate (rs.map fun
        | .msg b => "msg:" ++ toHex b
        | .closed => "closed"
        | .spin => "spin")
    | _, _, _ => "bad-op"
  | _ => "bad-op"

/-! ## c10send: `c10send <hexbody;hexbody;...|-> <caps csv|->` -> the bytes on the wire -/
open PwVerif.Framing in
def c10send (args : List String) : String :=
  match args with
  | [ms, c] =>
    match (if ms == "-" then some [] else (ms.splitOn ";").mapM fieldHex), parseNats c with
    | some msgs, some caps => let w := sendMsgs msgs caps []; if w.isEmpty then "-" else toHex w
    | _, _ => "bad-op"
  | _ => "bad-op"

/-! ## c19: `c19 <op> <op> ...` with ops `c1 c0 f<w> r<w> a x`;
output per `a`/`x`: `<sorted yielded ids>;<registry size after>`, per probe `d`: `D<registry size>,<registered dead>`, joined by `|` -/
def insertSorted (x : Nat) : List Nat → List Nat
  | [] => [x]
  | y :: ys => if x ≤ y then x :: y :: ys else y :: insertSorted x ys
def sortNats (l : List Nat) : List Nat := l.foldr insertSorted []

open PwVerif.Registry in
def c19Op (t : String) : Option Op :=
  if t == "c1" then some (.create true)
  else if t == "c0" then some (.create false)
  else if t == "a" then some .active
  else if t == "x" then some .autoclose
  else if t.startsWith "f" then (t.drop 1).toNat?.map .finish
  else if t.startsWith "r" then (t.drop 1).toNat?.map .restart
  else none

open PwVerif.Registry in
def c19 (args : List String) : String :=
  -- `d` is a probe, not an operation: registry size and number of registered dead workers, unpruned
  if !(args.all fun t => t == "d" || (c19Op t).isSome) then "bad-op" else
    let rec go (s : St) (ts : List String) (acc : List String) : List String :=
      match ts with
      | [] => acc.reverse
      | t :: rest =>
        if t == "d" then go s rest (("D" ++ toString s.reg.length ++ "," ++ toString (dead s)) :: acc) else
        match c19Op t with
        | none => acc.reverse
        | some op =>
          let (s', out) := step s op
          match op with
          | .active | .autoclose =>
            go s' rest ((",".intercalate ((sortNats out).map toString) ++ ";" ++ toString s'.reg.length) :: acc)
          | _ => go s' rest acc
    "|".intercalate (go {} args [])

/-! ## frames: `frames <graph> <patches>`
graph  ::= `a` | `r` | `p(` graph,* `)` | `o<id>(` <key>`:`graph,* `)`
patches::= `{` <key>`:`(`v<n>` | patches),* `}`
output : `ok <id>:<k=v<n>|k=d|k=o<id>,...>;...` (setstate order) or `err <kind>` -/
namespace FramesIO
open PwVerif.Frames

instance : Inhabited Node := ⟨.atom⟩
abbrev P := StateM (List Char)
def peek : P (Option Char) := do return (← get).head?
def adv : P Unit := modify List.tail
partial def nat : P Nat := do
  let rec go (acc : Nat) : P Nat := do
    match (← peek) with
    | some c => if c.isDigit then adv *> go (acc * 10 + (c.toNat - '0'.toNat)) else return acc
    | none => return acc
  go 0

mutual
partial def node : P Node := do
  match (← peek) with
  | some 'p' => adv; adv; let xs ← nodes []; return .plain xs
  | some 'o' => adv; let i ← nat; adv; let fs ← fields []; return .opt i fs
  | some 'r' => adv; return .ref
  | _ => adv; return .atom
partial def nodes (acc : List Node) : P (List Node) := do
  match (← peek) with
  | some ')' => adv; return acc.reverse
  | some ',' => adv; nodes acc
  | none => return acc.reverse
  | _ => let n ← node; nodes (n :: acc)
partial def fields (acc : List (Nat × Node)) : P (List (Nat × Node)) := do
  match (← peek) with
  | some ')' => adv; return acc.reverse
  | some ',' => adv; fields acc
  | none => return acc.reverse
  | _ => let k ← nat; adv; let n ← node; fields ((k, n) :: acc)
end

partial def patches (acc : Patches) : P Patches := do
  match (← peek) with
  | some '{' => adv; patches acc
  | some '}' => adv; return acc.reverse
  | some ',' => adv; patches acc
  | none => return acc.reverse
  | _ =>
    let k ← nat; adv
    match (← peek) with
    | some 'v' => adv; let v ← nat; patches ((k, .val v) :: acc)
    | _ => let sub ← patches []; patches ((k, .dict sub) :: acc)

def showPatch : Patch → String
  | .val v => "v" ++ toString v
  | .dict _ => "d"
  | .obj i => "o" ++ toString i

def insertKV (x : Nat × String) : List (Nat × String) → List (Nat × String)
  | [] => [x]
  | y :: ys => if x.1 ≤ y.1 then x :: y :: ys else y :: insertKV x ys

def showDelivered (d : List (Nat × Patches)) : String :=
  ";".intercalate (d.map fun (i, ps) =>
    toString i ++ ":" ++ ",".intercalate (((ps.map fun (k, p) => (k, showPatch p)).foldr insertKV []).map
      fun (k, v) => toString k ++ "=" ++ v))

def run (args : List String) : String :=
  match args with
  | [g, p] =>
    let (gn, _) := node.run g.toList
    let (ps, _) := (patches []).run p.toList
    match load ps gn with
    | .ok s => "ok " ++ showDelivered s.delivered
    | .error .assertChildRestored => "err assert-child-restored"
    | .error .assertParentName => "err assert-parent-name"
    | .error .assertExit => "err assert-exit"
    | .error .indexError => "err index"
  | _ => "bad-op"
end FramesIO

/-! ## c13mro: `c13mro <tok>...` tok = `<0|1><n|r|k|p>` (definesReduce, getstate kind), MRO order
      c13choice: `c13choice <remote> <builtin> <inCopyreg> <registered> <optIn>` (0/1 each) -/
open PwVerif.Mro in
def c13mro (args : List String) : String :=
  let parse (t : String) : Option ClassInfo :=
    match t.toList with
    | [d, g] =>
      let gs := match g with | 'r' => some GS.remote | 'k' => some GS.kwargs | 'p' => some GS.plain | 'n' => some GS.none | _ => none
      gs.map fun g => ⟨d == '1', g⟩
    | _ => none
  match args.mapM parse with
  | none => "bad-op"
  | some mro => match checkType mro with
    | .ok true => "ok1"
    | .ok false => "ok0"
    | .warning => "warn"

open PwVerif.Mro in
def c13choice (args : List String) : String :=
  match args.map (· == "1") with
  | [r, b, c, g, o] =>
    match remoteChoice r ⟨b, c, g, o⟩ with
    | .builtinSave => "std"
    | .copyregReducer => "std"
    | .reduceEx => "std"
    | .remoteReduce true => "remote1"
    | .remoteReduce false => "remote0"
  | _ => "bad-op"

/-! ## pool: `pool <retry> <extra> <returnResults> <nworkers> <inputs csv|-> <refused w:i,...|-> <ev>...`
events (`<pre-run events> | <events>`): `w<k>` work, `d<k>m` / `d<k>e` die with marker / bare EOF, `p<k>[.<k>]*` poll batch
output: `<outcome> ret=<csv> enq=<w:i,...>` -/
namespace PoolIO
open PwVerif.Pool

def parsePairs (s : String) : Option (List (Nat × Nat)) :=
  if s == "-" then some [] else
  (s.splitOn ",").mapM fun t =>
    match t.splitOn ":" with
    | [a, b] => do pure ((← a.toNat?), (← b.toNat?))
    | _ => none

def parseEv (t : String) : Option Ev :=
  match t.toList with
  | 'w' :: r => (String.ofList r).toNat?.map .work
  | 'd' :: r =>
    let body := String.ofList r
    if body.endsWith "m" then (body.dropEnd 1).toNat?.map (.die · true)
    else if body.endsWith "e" then (body.dropEnd 1).toNat?.map (.die · false)
    else none
  | 'p' :: r => (((String.ofList r).splitOn ".").mapM fun (t : String) => t.toNat?).map .poll
  | _ => none

def csv (l : List Nat) : String := ",".intercalate (l.map toString)

def showSt (s : St) : String :=
  let o := match outcome s with
    | .waiting => "running"
    | .returned _ => "returned"
    | .poolError _ => "poolerror"
    | .internal .popEmpty => "internal:IndexError"
    | .internal .outOfFuel => "livelock"
  o ++ " ret=" ++ csv s.ret ++ " enq=" ++ ",".intercalate (s.enq.map fun (w, i) => toString w ++ ":" ++ toString i)
    ++ " closed=" ++ csv ((List.range s.ws.length).filter fun k => (getW s k).closed)
    ++ " drop=" ++ ",".intercalate (s.dropped.map fun d => toString d.w ++ ":" ++ toString d.inp ++ ":" ++ (if d.handed then "1" else "0"))

/-- later runs on the same pool: `|| <inputs> <pre...> | <evs...>` repeated -/
partial def laterRuns (c : Cfg) (s : St) (args : List String) : Option (List String) :=
  match args with
  | [] => some []
  | inputs :: rest =>
    let seg := rest.takeWhile (· ≠ "||")
    let more := (rest.dropWhile (· ≠ "||")).drop 1
    let pre := seg.takeWhile (· ≠ "|")
    let evs := (seg.dropWhile (· ≠ "|")).drop 1
    match parseNats inputs, pre.mapM parseEv, evs.mapM parseEv with
    | some inputs, some pre, some evs =>
      let s0 := resetFor PwVerif.Gen.poolReset s inputs
      if !usable s0 then
        -- `run()` returns None at once: nothing changes
        (laterRuns c s more).map (("noworkers ret= enq= closed=" ++ csv ((List.range s.ws.length).filter fun k => (getW s k).closed) ++ " drop=") :: ·)
      else
        let s' := runEvents c pickFirst (nextRun c pickFirst PwVerif.Gen.poolReset s inputs pre) evs
        (laterRuns c s' more).map (showSt s' :: ·)
    | _, _, _ => none

def run (args : List String) : String :=
  match args with
  | retry :: extra :: rr :: n :: inputs :: refused :: evs0 =>
    let first := evs0.takeWhile (· ≠ "||")
    let later := (evs0.dropWhile (· ≠ "||")).drop 1
    let pre := first.takeWhile (· ≠ "|")
    let evs := (first.dropWhile (· ≠ "|")).drop 1
    match extra.toNat?, n.toNat?, parseNats inputs, parsePairs refused, evs.mapM parseEv, pre.mapM parseEv with
    | some extra, some n, some inputs, some refused, some evs, some pre =>
      let c : Cfg := { retry := retry == "1", extra := extra, returnResults := rr == "1",
                       refuse := fun w i => refused.any (· == (w, i)) }
      let s := runEvents c pickFirst (start c pickFirst n inputs pre) evs
      match laterRuns c s later with
      | some outs => " || ".intercalate (showSt s :: outs)
      | none => "bad-op"
    | _, _, _, _, _, _ => "bad-op"
  | _ => "bad-op"
end PoolIO

/-! ## run: `run <prog> <target r|u|b> <targetNone 0|1> <inputs e.g. iir|-> <k|-> <async w|c|k>`
   (w = WTE raised by the hook, c = WTE via the control thread after a real terminate(), k = kill)
output: `out=<..> obs=<has_error>/<error> trace=<ln,ln,...> comms=<..> results=<..>` -/
namespace RunIO
open PwVerif.Py PwVerif.Lifecycle

def prog (n : String) : Option (List Stmt × Kind) :=
  match n with
  | "threadRun" => some (PwVerif.Gen.threadRun, .thread)
  | "processRun" => some (PwVerif.Gen.processRun, .process)
  | "remoteRun" => some (PwVerif.Gen.remoteRun, .remote)
  | "pthreadRun" => some (PwVerif.Gen.pthreadRun, .thread)
  | "pprocessRun" => some (PwVerif.Gen.pprocessRun, .process)
  | "premoteRun" => some (PwVerif.Gen.premoteRun, .remote)
  | _ => none

def showExc : Exc → String
  | .wte => "wte" | .user => "user" | .base => "base" | .closed => "closed" | .empty => "empty" | .os => "other" | .nothing => "nothing"

def showMsg : Msg → String
  | .info => "info" | .final none _ => "ok" | .final (some e) _ => "err:" ++ showExc e
  | .noneResult => "none" | .userState _ => "ustate" | .item c => "item" ++ toString c | .endMarker c => "end" ++ toString c

def showOut : Out → String
  | .normal => "normal" | .raised e => "raised:" ++ showExc e | .returned => "returned" | .broke => "broke"
  | .killed => "killed" | .stuck => "stuck" | .fuel => "fuel"

def run (args : List String) : String :=
  match args with
  | p :: t :: tn :: inp :: k :: a :: opt =>
    match prog p with
    | none => "bad-op"
    | some (pr, kind) =>
      let target := if t == "u" then Target.raisesUser else if t == "b" then Target.raisesBase else Target.returns
      let inputs := if inp == "-" then [] else inp.toList.map fun c => if c == 'i' then Input.item else if c == 'r' then Input.release else Input.eof
      let async := if a == "k" then Async.kill
        else if a.startsWith "D" then Async.deferred ((a.drop 1).toNat?.getD 0)
        else Async.raiseWte (a == "c")
      let (st, out) := PwVerif.Py.run pr { target := target, targetNone := tn == "1", assigns := opt.contains "assign" } inputs k.toNat? async
      let o := observe kind st
      let he := match o.hasError with | none => "None" | some true => "True" | some false => "False"
      let er := match o.error with | none => "None" | some e => showExc e
      "out=" ++ showOut out ++ " obs=" ++ he ++ "/" ++ er ++ " ustate=" ++ toString (parentState kind st) ++ " raisedAt=" ++ (match st.raisedAt with | none => "-" | some l => toString l) ++ " trace=" ++ ",".intercalate (st.trace.map toString)
        ++ " comms=" ++ ",".intercalate (st.comms.map showMsg) ++ " results=" ++ ",".intercalate (st.results.map showMsg)
  | _ => "bad-op"
end RunIO

/-! ## c05: `c05 <defaults csv|-> <kwdefaults k:v,...|-> <enq>...`, enq = `<args csv|->;<kw k:v,...|->`
output per enqueue: `<merged args csv>;<merged kw k:v sorted by key>` joined by `|` -/
namespace StreamIO
open PwVerif.Stream
def kvs (s : String) : Option (List (Nat × Nat)) := PoolIO.parsePairs s
def showKw (l : List (Nat × Nat)) : String :=
  let sorted := l.foldr (fun x acc =>
    let rec ins (x : Nat × Nat) : List (Nat × Nat) → List (Nat × Nat)
      | [] => [x]
      | y :: ys => if x.1 ≤ y.1 then x :: y :: ys else y :: ins x ys
    ins x acc) []
  ",".intercalate (sorted.map fun (k, v) => toString k ++ ":" ++ toString v)
def run (args : List String) : String :=
  match args with
  | d :: kd :: enqs =>
    match parseNats d, kvs kd with
    | some d, some kd =>
      let outs := enqs.map fun e =>
        match e.splitOn ";" with
        | [a, k] =>
          match parseNats a, kvs k with
          | some a, some k => PoolIO.csv (merge d a) ++ ";" ++ showKw (kwmerge kd k)
          | _, _ => "bad"
        | _ => "bad"
      "|".intercalate outs
    | _, _ => "bad-op"
  | _ => "bad-op"
end StreamIO

def step (line : String) : String :=
  match (line.trimAscii.toString.splitOn " ").filter (· ≠ "") with
  | "c10" :: args => c10 args
  | "c10send" :: args => c10send args
  | "c19" :: args => c19 args
  | "frames" :: args => FramesIO.run args
  | "c13mro" :: args => c13mro args
  | "pool" :: args => PoolIO.run args
  | "run" :: args => RunIO.run args
  | "c05" :: args => StreamIO.run args
  | "c18" :: ops =>
    -- ops `c<i>:<p>` (register context i with payload p; `c<i>` = payload 0), `d<i>`, `w<i>`;
    -- reply per op: ok | exists | refused, for an accepted worker request `ok:<payload served>`
    let parse (t : String) : Option PwVerif.Contexts.Op :=
      match t.toList with
      | 'c' :: r =>
        match (String.ofList r).splitOn ":" with
        | [i] => i.toNat?.map (PwVerif.Contexts.Op.create · 0)
        | [i, q] => match i.toNat?, q.toNat? with
          | some i, some q => some (.create i q)
          | _, _ => none
        | _ => none
      | 'd' :: r => (String.ofList r).toNat?.map .delete
      | 'w' :: r => (String.ofList r).toNat?.map .workerIn
      | _ => none
    match ops.mapM parse with
    | none => "bad-op"
    | some ops =>
      let rec go (t : PwVerif.Contexts.Table) (ops : List PwVerif.Contexts.Op) (acc : List String) : List String :=
        match ops with
        | [] => acc.reverse
        | op :: rest =>
          let (t', r) := PwVerif.Contexts.step t op
          let out := match op, r with
            | .workerIn i, .ok => (match PwVerif.Contexts.serves t i with
                | some q => "ok:" ++ toString q | none => "ok:?")
            | _, .ok => "ok" | _, .exists => "exists" | _, .refused => "refused"
          go t' rest (out :: acc)
      ",".intercalate (go [] ops [])
  | "fwd" :: msgs =>
    -- `fwd <i<c>|e<c>|f>...`: PersistentRemoteWorker._fetch_results over a scripted message sequence
    let parse (t : String) : Option PwVerif.Forward.In :=
      match t.toList with
      | 'i' :: r => (String.ofList r).toNat?.map .item
      | 'e' :: r => (String.ofList r).toNat?.map .endM
      | ['f'] => some .final
      | _ => none
    match msgs.mapM parse with
    | none => "bad-op"
    | some ms =>
      let s := PwVerif.Forward.fwd PwVerif.Gen.fwdCfg ms {}
      "crashed=" ++ (if s.crashed then "1" else "0") ++ " out=" ++ ",".intercalate (s.out.map fun
        | .item c => "i" ++ toString c | .endM c => "e" ++ toString c)
  | "c02create" :: _ =>
    ",".intercalate ([false, true].flatMap fun p => [PwVerif.Create.WType.thread, .process, .remote].map fun t => PwVerif.Create.className t p)
  | "c13choice" :: args => c13choice args
  | ["acc", rec, phases, last] =>
    -- acc r|n <phase letters r/c/d, one per read> <phase letter>: ThreadWorker._get_result with the regenerated order
    let ph : Char → Option PwVerif.Accessor.Phase := fun
      | 'r' => some .running | 'c' => some .recorded | 'd' => some .dead | _ => none
    match phases.toList.mapM ph, last.toList.mapM ph with
    | some ps, some [l] =>
      if ps.length != PwVerif.Gen.threadGetResult.length then "bad-op" else
      match PwVerif.Accessor.getResult (rec == "r") PwVerif.Gen.threadGetResult ps l with
      | .none => "none" | .own => "own" | .fabricated => "fabricated"
    | _, _ => "bad-op"
  | _ => "bad-op"

partial def loop (h : IO.FS.Stream) : IO Unit := do
  let line ← h.getLine
  if line.isEmpty then return ()
  IO.println (step line)
  loop h

end PwVerif.Driver

def main : IO Unit := do PwVerif.Driver.loop (← IO.getStdin)
